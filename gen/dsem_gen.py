"""Typed random program generator for the DoraSem family (C01/C02/C14/C13): emits, from one tree, the Dora source
of a multi-case executable (one module per case, dispatch on argv) and the JSON ASTs that spec/lang/DoraSem.tla
interprets. Every statement is on its own source line; AST nodes that can trap carry that line.

Integer values are BoundaryInt pairs (c, o): value = c * 2^(w-1) + o with c in {-1,0,1}, |o| <= K.
"""
import json, random

K = 32767
TYN = {"i32": "Int32", "i64": "Int64", "bool": "Bool"}
SUF = {"i32": "i32", "i64": "i64"}
INT = ["i32", "i64"]


def tyname(t):
    if isinstance(t, str):
        return TYN.get(t, t)
    k = t[0]
    if k == "tuple": return "(" + ", ".join(tyname(x) for x in t[1]) + ")"
    if k == "struct" or k == "class" or k == "enum": return t[1]
    if k == "opt": return f"Option[{tyname(t[1])}]"
    if k == "arr": return f"Array[{tyname(t[1])}]"
    raise ValueError(t)


def tykey(t):
    return t if isinstance(t, str) else json.dumps(t)


class Case:
    """one generated case = one module"""

    def __init__(self, rnd, cid, feat, layout=None):
        self.r = rnd; self.id = cid; self.feat = feat
        self.layout = layout     # "layout" family: the index selects trap kind and the amount of non-trapping filler
        self.lines = []          # source lines of the module body (without the module header)
        self.structs = []; self.classes = []; self.enums = []; self.globals = []; self.fns = []
        self.lam = 0; self.var = 0
        self.depth_budget = 0
        self.safe = "chain" in feat and rnd.random() < 0.6     # quiet prefix: the only trap is the chain's

    # ---------- literals ----------
    def lit(self, ty, small=False):
        r = self.r
        if ty == "bool":
            return {"k": "lit", "ty": "bool", "b": r.random() < 0.5}
        kind = "z" if (small or self.safe) else r.choice(["z", "z", "z", "z", "max", "min"])
        if kind == "z":
            c, o = 0, r.choice([0, 1, -1, 2, -2, 3, 7, -7, 10, 100, -100, r.randint(-300, 300)] if not self.safe else [0, 1, 2, 3, -1])
        elif kind == "max":
            c, o = 1, -r.choice([1, 1, 2, 3, 4, 8])
        else:
            c, o = -1, r.choice([0, 0, 1, 2, 3, 7])
        return {"k": "lit", "ty": ty, "c": c, "o": o}

    def fresh(self, p="v"):
        self.var += 1
        return f"{p}{self.var}"

    # ---------- expressions ----------
    def expr(self, ty, env, d):
        """env: dict name -> type (locals readable here)"""
        r = self.r
        tk = tykey(ty)
        cands = [n for n, t in env.items() if tykey(t) == tk]
        if not isinstance(ty, str):
            return self.compound(ty, env, d, cands)
        if d <= 0 or r.random() < 0.22:
            if cands and r.random() < 0.65:
                return {"k": "var", "n": r.choice(cands), "ty": ty}
            gl = [g for g in self.globals if g["ty"] == ty]
            if gl and r.random() < 0.3:
                return {"k": "glob", "n": r.choice(gl)["n"], "ty": ty}
            return self.lit(ty)
        if ty == "bool":
            c = r.random()
            if c < 0.55:
                t = r.choice(INT)
                return {"k": "cmp", "op": r.choice(["<", "<=", "==", "!=", ">", ">="]), "l": self.expr(t, env, d - 1), "r": self.expr(t, env, d - 1), "ty": "bool"}
            if c < 0.7:
                return {"k": "un", "op": "!", "e": self.expr("bool", env, d - 1), "ty": "bool"}
            if c < 0.9:
                return {"k": "logic", "op": r.choice(["&&", "||"]), "l": self.expr("bool", env, d - 1), "r": self.expr("bool", env, d - 1), "ty": "bool"}
            return self.proj(ty, env, d) or self.lit(ty)
        c = r.random()
        if self.safe:
            c = r.choice([0.1, 0.6, 0.9])
        if c < 0.40:
            return {"k": "bin", "op": r.choice(["+", "-", "*", "/", "%", "+", "-", "*"] if not self.safe else ["+", "-"]), "l": self.expr(ty, env, d - 1), "r": self.expr(ty, env, d - 1), "ty": ty}
        if c < 0.50:
            return {"k": "wrap", "op": r.choice(["wrapping_add", "wrapping_sub", "wrapping_mul"]), "l": self.expr(ty, env, d - 1), "r": self.expr(ty, env, d - 1), "ty": ty}
        if c < 0.56:
            return {"k": "un", "op": "-", "e": self.expr(ty, env, d - 1), "ty": ty}
        if c < 0.64:
            return {"k": "if", "c": self.expr("bool", env, d - 1), "t": self.expr(ty, env, d - 1), "e": self.expr(ty, env, d - 1), "ty": ty}
        if c < 0.70 and "shift" in self.feat:
            amt = r.choice([{"k": "lit", "ty": "i32", "c": 0, "o": r.choice([0, 1, 2, 3, 5, 31, 32, 63, 64, -1])}, self.expr("i32", env, 0)])
            return {"k": "shift", "op": r.choice(["<<", ">>", ">>>"]), "l": self.expr(ty, env, d - 1), "r": amt, "ty": ty}
        if c < 0.75 and "conv" in self.feat:
            src = "i64" if ty == "i32" else "i32"
            return {"k": "conv", "from": src, "e": self.expr(src, env, d - 1), "ty": ty}
        if c < 0.88 and self.fns:
            fs = [f for f in self.fns if f["ret"] == ty and f.get("callable", True)]
            if fs and self.depth_budget > 0:
                f = r.choice(fs)
                self.depth_budget -= 1
                return {"k": "call", "fn": f["n"], "args": [self.expr(pt, env, d - 1) for _, pt in f["params"]], "ty": ty}
        p = self.proj(ty, env, d)
        if p is not None:
            return p
        return {"k": "bin", "op": r.choice(["+", "-"]), "l": self.expr(ty, env, d - 1), "r": self.lit(ty, small=True), "ty": ty}

    def proj(self, ty, env, d):
        """a scalar read out of a compound local: tuple element, struct/class field, array element, lambda call"""
        r = self.r
        opts = []
        for n, t in env.items():
            if isinstance(t, str):
                continue
            if t[0] == "tuple":
                for i, et in enumerate(t[1]):
                    if et == ty: opts.append({"k": "tget", "e": {"k": "var", "n": n, "ty": t}, "i": i, "ty": ty})
            elif t[0] in ("struct", "class"):
                decl = self.decl(t)
                for fn_, ft in decl["fields"]:
                    if ft == ty: opts.append({"k": "fget", "e": {"k": "var", "n": n, "ty": t}, "f": fn_, "ty": ty, "ref": t[0] == "class"})
            elif t[0] == "arr" and t[1] == ty:
                idx = r.choice([{"k": "lit", "ty": "i64", "c": 0, "o": r.randint(-1, 4)}, self.expr("i64", {k: v for k, v in env.items() if v == "i64"}, 0)]) if not self.safe else {"k": "lit", "ty": "i64", "c": 0, "o": 0}
                opts.append({"k": "index", "a": n, "i": idx, "ty": ty})
            elif t[0] == "lam" and t[2] == ty and d > 0:
                opts.append({"k": "invoke", "n": n, "args": [self.expr(pt, env, d - 1) for pt in t[1]], "ty": ty})
        return r.choice(opts) if opts else None

    def decl(self, t):
        for dlist in (self.structs, self.classes, self.enums):
            for x in dlist:
                if x["n"] == t[1]:
                    return x
        raise KeyError(t)

    def compound(self, ty, env, d, cands):
        r = self.r
        if cands and (d <= 0 or r.random() < 0.5):
            return {"k": "var", "n": r.choice(cands), "ty": ty}
        k = ty[0]
        if k == "tuple":
            return {"k": "tuple", "es": [self.expr(t, env, d - 1) for t in ty[1]], "ty": ty}
        if k in ("struct", "class"):
            decl = self.decl(ty)
            return {"k": "new", "ref": k == "class", "n": ty[1], "fs": [[fn_, self.expr(ft, env, d - 1)] for fn_, ft in decl["fields"]], "ty": ty}
        if k == "enum":
            decl = self.decl(ty)
            v = r.choice(decl["variants"])
            return {"k": "enew", "n": ty[1], "v": v["n"], "args": [self.expr(t, env, d - 1) for t in v["tys"]], "ty": ty}
        if k == "opt":
            if r.random() < 0.3:
                return {"k": "enew", "n": "Option", "v": "None", "args": [], "ty": ty, "targ": ty[1]}
            return {"k": "enew", "n": "Option", "v": "Some", "args": [self.expr(ty[1], env, d - 1)], "ty": ty, "targ": ty[1]}
        raise ValueError(ty)

    # ---------- statements ----------
    def stmts(self, env, n, d, in_loop=False, ret=None):
        """returns list of statements; env is extended in place by lets"""
        r = self.r
        out = []
        for _ in range(n):
            c = r.random()
            scal = [(nm, t) for nm, t in env.items() if isinstance(t, str) and nm in self.mutable]
            if c < 0.22:
                t = self.pick_type()
                nm = self.fresh()
                e = self.expr(t, env, 2)
                out.append({"k": "let", "n": nm, "ty": t, "e": e})
                env[nm] = t
                self.mutable.add(nm)
            elif c < 0.36:
                out.append(self.print_stmt(env))
            elif c < 0.46 and scal:
                nm, t = r.choice(scal)
                out.append({"k": "set", "n": nm, "e": self.expr(t, env, 2)})
            elif c < 0.52:
                st = self.field_set(env)
                out.append(st if st else self.print_stmt(env))
            elif c < 0.58 and d > 0:
                body_env = dict(env)
                t_ = self.stmts(body_env, r.randint(1, 2), d - 1, in_loop, ret)
                body_env2 = dict(env)
                e_ = self.stmts(body_env2, r.randint(0, 2), d - 1, in_loop, ret)
                out.append({"k": "ifs", "c": self.expr("bool", env, 2), "t": t_, "e": e_})
            elif c < 0.66 and d > 0:
                out.append(self.loop(env, d))
            elif c < 0.70 and in_loop:
                out.append({"k": r.choice(["break", "continue"])})
                break
            elif c < 0.74 and ret is not None and d < 2:
                out.append({"k": "return", "e": self.expr(ret, env, 2)})
                break
            elif c < 0.80 and self.globals:
                g = r.choice(self.globals)
                out.append({"k": "gset", "n": g["n"], "e": self.expr(g["ty"], env, 2)})
            elif c < 0.84 and "match" in self.feat and d > 0:
                m = self.match_stmt(env, d, ret if d < 2 else None)
                out.append(m if m else self.print_stmt(env))
                if m and m.get("form") == "return":
                    break
            elif c < 0.87 and "lambda" in self.feat and d > 0:
                out.append(self.lambda_let(env))
            elif c < 0.93 and self.classes and "alias" in self.feat:
                out.extend(self.alias_block(env))
            elif c < 0.95:
                out.append({"k": "assert", "e": self.expr("bool", env, 1) if (r.random() < 0.5 and not self.safe) else {"k": "lit", "ty": "bool", "b": True}})
            else:
                out.append(self.print_stmt(env))
        return out

    def pick_type(self):
        r = self.r
        opts = ["i32", "i64", "i32", "i64", "bool"]
        if "tuple" in self.feat: opts.append(("tuple", [r.choice(INT + ["bool"]) for _ in range(r.randint(2, 3))]))
        if self.structs: opts.append(("struct", r.choice(self.structs)["n"]))
        if self.classes: opts.append(("class", r.choice(self.classes)["n"]))
        if self.enums: opts.append(("enum", r.choice(self.enums)["n"]))
        if "option" in self.feat: opts.append(("opt", r.choice(INT)))
        t = r.choice(opts)
        return t if isinstance(t, str) else list(t) if False else self.norm(t)

    def norm(self, t):
        return [t[0], t[1]] if isinstance(t, tuple) else t

    def opaque_cond(self, env):
        """a condition the optimizer cannot fold: compares a global / array element / mutable local"""
        r = self.r
        srcs = [{"k": "glob", "n": g["n"], "ty": g["ty"]} for g in self.globals]
        for n, t in env.items():
            if not isinstance(t, str) and t[0] == "arr":
                srcs.append({"k": "index", "a": n, "i": {"k": "lit", "ty": "i64", "c": 0, "o": 0}, "ty": t[1]})
        if not srcs:
            return self.expr("bool", env, 2)
        a = r.choice(srcs)
        return {"k": "cmp", "op": r.choice(["<", "<=", "==", "!=", ">", ">="]), "l": a, "r": self.lit(a["ty"], small=True), "ty": "bool"}

    def alias_block(self, env):
        """two fresh objects, a reference chosen at run time between them, a store through it, then reads through the
        original references with no call in between (reference identity must be respected by every optimisation)"""
        r = self.r
        decl = r.choice(self.classes)
        t = ["class", decl["n"]]
        a, b, al = self.fresh(), self.fresh(), self.fresh()
        out = []
        for nm in (a, b):
            out.append({"k": "let", "n": nm, "ty": t, "e": {"k": "new", "ref": True, "n": decl["n"], "fs": [[f, self.lit(ft, small=True)] for f, ft in decl["fields"]], "ty": t}})
            env[nm] = t; self.mutable.add(nm)
        va = {"k": "var", "n": a, "ty": t}; vb = {"k": "var", "n": b, "ty": t}
        out.append({"k": "let", "n": al, "ty": t, "e": {"k": "if", "c": self.opaque_cond(env), "t": va, "e": vb, "ty": t}})
        env[al] = t; self.mutable.add(al)
        f, ft = r.choice(decl["fields"])
        def rd(x):
            return {"k": "fget", "e": x, "f": f, "ty": ft, "ref": True}
        # reads into scalar locals: no call between the cached load, the store through the alias and the re-load
        pre = [self.fresh(), self.fresh()]; post = [self.fresh(), self.fresh()]
        for nm, x in zip(pre, (va, vb)):
            out.append({"k": "let", "n": nm, "ty": ft, "e": rd(x)}); env[nm] = ft
        out.append({"k": "fset", "n": al, "f": f, "ref": True, "e": self.lit(ft, small=True) if ft != "bool" else {"k": "un", "op": "!", "e": {"k": "var", "n": pre[0], "ty": "bool"}, "ty": "bool"}})
        for nm, x in zip(post, (va, vb)):
            out.append({"k": "let", "n": nm, "ty": ft, "e": rd(x)}); env[nm] = ft
        out.append({"k": "print", "es": [{"k": "var", "n": nm, "ty": ft} for nm in pre + post] + [rd({"k": "var", "n": al, "ty": t})], "nl": True})
        return out

    def print_stmt(self, env):
        r = self.r
        parts = [self.expr(r.choice(["i32", "i64", "bool"]), env, 3) for _ in range(r.choice([1, 1, 1, 2, 3]))]
        return {"k": "print", "es": parts, "nl": (r.random() < 0.9) or "print_nonl" not in self.feat}

    def field_set(self, env):
        r = self.r
        opts = []
        for n, t in env.items():
            if isinstance(t, str): continue
            if t[0] == "class" or (t[0] == "struct" and n in self.mutable):
                for fn_, ft in self.decl(t)["fields"]:
                    opts.append({"k": "fset", "n": n, "f": fn_, "ref": t[0] == "class", "e": self.expr(ft, env, 2)})
            if t[0] == "arr":
                idx = {"k": "lit", "ty": "i64", "c": 0, "o": r.randint(-1, 4) if not self.safe else 0} if (r.random() < 0.6 or self.safe) else self.expr("i64", env, 1)
                opts.append({"k": "seta", "a": n, "i": idx, "e": self.expr(t[1], env, 2)})
        return r.choice(opts) if opts else None

    def loop(self, env, d):
        r = self.r
        cnt = self.fresh("lc")
        n = r.randint(1, 4)
        body_env = dict(env); body_env[cnt] = "i32"
        body = self.stmts(body_env, r.randint(1, 3), d - 1, in_loop=True)
        return {"k": "loop", "c": cnt, "n": n, "body": body}

    def match_stmt(self, env, d, ret=None):
        r = self.r
        opts = [(n, t) for n, t in env.items() if not isinstance(t, str) and t[0] in ("enum", "opt")]
        if not opts: return None
        n, t = r.choice(opts)
        arms = []
        if t[0] == "opt":
            variants = [{"n": "Some", "tys": [t[1]]}, {"n": "None", "tys": []}]
        else:
            variants = self.decl(t)["variants"]
        use_wild = r.random() < 0.3 and len(variants) > 1
        # the match as an expression: right-hand side of an assignment (`v = match ..`) or operand of `return`; the AST is the
        # statement match whose arms assign / return (same meaning), `form` only selects the rendering
        form = tgt = tt = None
        scal = [(nm, ty_) for nm, ty_ in env.items() if isinstance(ty_, str) and nm in self.mutable]
        c = r.random()
        if scal and c < 0.4:
            form = "assign"; tgt, tt = r.choice(scal)
        elif ret is not None and c < 0.55:
            form = "return"
        def body(body_env):
            if form == "assign": return [{"k": "set", "n": tgt, "e": self.expr(tt, body_env, 2)}]
            if form == "return": return [{"k": "return", "e": self.expr(ret, body_env, 2)}]
            return None
        for i, v in enumerate(variants):
            if use_wild and i == len(variants) - 1:
                body_env = dict(env)
                arms.append({"v": "_", "binds": [], "body": body(body_env) or self.stmts(body_env, 1, d - 1)})
                break
            binds = [self.fresh("b") for _ in v["tys"]]
            body_env = dict(env)
            for b, bt in zip(binds, v["tys"]): body_env[b] = bt
            arms.append({"v": v["n"], "binds": binds, "body": body(body_env) or self.stmts(body_env, r.randint(1, 2), d - 1)})
        m = {"k": "match", "n": n, "ty": t, "arms": arms}
        if form:
            m["form"] = form
            if tgt: m["tgt"] = tgt
        return m

    def lambda_let(self, env):
        r = self.r
        self.lam += 1
        nm = self.fresh("lam")
        pt = [r.choice(INT) for _ in range(r.randint(0, 2))]
        rt = r.choice(INT)
        params = [self.fresh("p") for _ in pt]
        body_env = {k: v for k, v in env.items() if isinstance(v, str) or v[0] != "lam"}
        for p, t in zip(params, pt): body_env[p] = t
        stm = []
        scal = [(x, t) for x, t in env.items() if isinstance(t, str) and x in self.mutable and t in INT]
        if scal and r.random() < 0.7:
            x, t = r.choice(scal)
            stm.append({"k": "set", "n": x, "e": {"k": "bin", "op": r.choice(["+", "-"]), "l": {"k": "var", "n": x, "ty": t}, "r": self.lit(t, small=True), "ty": t}})
        save = self.depth_budget
        res = self.expr(rt, body_env, 2)
        self.depth_budget = save
        env[nm] = ["lam", pt, rt]
        return {"k": "lamlet", "n": nm, "params": [[p, t] for p, t in zip(params, pt)], "ret": rt, "body": stm, "res": res}

    def filler(self, t, n, prefix):
        """n statements over the parameter x that cannot trap (wrapping arithmetic with small / large immediates)"""
        r = self.r
        out = []; prev = "x"
        for j in range(n):
            nm = f"{prefix}{j}"
            # values stay small (exactly representable in the spec): +/- small literals or x, times 1
            op = r.choice(["wrapping_add", "wrapping_sub", "wrapping_add", "wrapping_sub", "wrapping_mul"])
            rhs = {"k": "lit", "ty": t, "c": 0, "o": 1} if op == "wrapping_mul" else r.choice([{"k": "lit", "ty": t, "c": 0, "o": r.choice([1, 3, 100, 500])}, {"k": "var", "n": "x", "ty": t}])
            out.append({"k": "let", "n": nm, "ty": t, "e": {"k": "wrap", "op": op, "l": {"k": "var", "n": prev, "ty": t}, "r": rhs, "ty": t}})
            prev = nm
        return out

    # ---------- declarations ----------
    def build(self):
        r = self.r
        self.mutable = set()
        if "struct" in self.feat:
            for i in range(r.randint(1, 2)):
                self.structs.append({"n": f"S{i}", "fields": [[f"a{j}", r.choice(INT + ["bool"])] for j in range(r.randint(1, 3))]})
        if "class" in self.feat:
            for i in range(r.randint(1, 2)):
                self.classes.append({"n": f"C{i}", "fields": [[f"m{j}", r.choice(INT + ["bool"])] for j in range(r.randint(1, 3))]})
        if "enum" in self.feat:
            for i in range(r.randint(1, 2)):
                vs = [{"n": f"V{j}", "tys": [r.choice(INT + ["bool"]) for _ in range(r.choice([0, 1, 1, 2]))]} for j in range(r.randint(2, 3))]
                self.enums.append({"n": f"E{i}", "variants": vs})
        if "global" in self.feat:
            for i in range(r.randint(1, 2)):
                t = r.choice(INT)
                self.globals.append({"n": f"G{i}", "ty": t, "e": self.lit(t, small=True)})
        nfn = r.randint(0, 3) if "fn" in self.feat else 0
        for i in range(nfn):
            params = [[f"a{i}_{j}", r.choice(INT + ["bool"])] for j in range(r.randint(0, 3))]
            ret = r.choice(INT)
            f = {"n": f"f{i}", "params": params, "ret": ret, "body": [], "res": None, "callable": False}
            env = {p: t for p, t in params}
            self.depth_budget = 2
            # earlier functions may be called (no recursion unless guarded below)
            saved_mut = self.mutable; self.mutable = set()
            body = self.stmts(env, r.randint(0, 3), 1, ret=ret)
            f["body"] = body
            f["res"] = self.expr(ret, env, 2)
            self.mutable = saved_mut
            f["callable"] = True
            self.fns.append(f)
        if "rec" in self.feat:
            t = r.choice(INT)
            base = self.lit(t, small=True)
            self.fns.append({"n": "rec0", "params": [["n", t], ["acc", t]], "ret": t, "rec": True, "callable": True,
                             "body": [{"k": "ifs", "c": {"k": "cmp", "op": "<=", "l": {"k": "var", "n": "n", "ty": t}, "r": {"k": "lit", "ty": t, "c": 0, "o": 0}, "ty": "bool"},
                                       "t": [{"k": "return", "e": {"k": "bin", "op": "+", "l": {"k": "var", "n": "acc", "ty": t}, "r": base, "ty": t}}], "e": []}],
                             "res": {"k": "call", "fn": "rec0", "ty": t, "args": [
                                 {"k": "bin", "op": "-", "l": {"k": "var", "n": "n", "ty": t}, "r": {"k": "lit", "ty": t, "c": 0, "o": 1}, "ty": t},
                                 {"k": "bin", "op": r.choice(["+", "*", "-"]), "l": {"k": "var", "n": "acc", "ty": t}, "r": {"k": "var", "n": "n", "ty": t}, "ty": t}]},
                             "maxn": 6})
        if "chain" in self.feat:
            # a call chain ch<d> -> ... -> ch0 whose innermost function performs one operation that traps for the
            # argument chosen in run(): every frame of the report is known (C14)
            t = r.choice(INT)
            depth = r.randint(1, 4)
            kind = r.choice(["div0", "ovf", "oob", "assert", "shift", "none"])
            fill0 = fillc = 0
            if self.layout is not None:
                # code-layout sweep: same failing operation, 0.. filler statements that cannot trap, so that the
                # functions' code sizes (and the position of the out-of-line trap call) sweep all alignments
                kinds = ["div0", "ovf", "oob", "assert", "shift"]
                kind = kinds[self.layout % len(kinds)]
                fill0 = self.layout // len(kinds)
                fillc = (self.layout * 7) % 5
                depth = 1 + self.layout % 2
            x = {"k": "var", "n": "x", "ty": t}
            one = {"k": "lit", "ty": t, "c": 0, "o": 1}
            if kind == "div0": op = {"k": "bin", "op": r.choice(["/", "%"]), "l": {"k": "lit", "ty": t, "c": 0, "o": 100}, "r": x, "ty": t}; arg = 0
            elif kind == "ovf": op = {"k": "bin", "op": "+", "l": {"k": "lit", "ty": t, "c": 1, "o": -1}, "r": x, "ty": t}; arg = 1
            elif kind == "shift": op = {"k": "shift", "op": "<<", "l": one, "r": {"k": "conv", "from": t, "e": x, "ty": "i32"} if t == "i64" else x, "ty": t}; arg = 64
            else: op = {"k": "bin", "op": "+", "l": x, "r": one, "ty": t}; arg = 3
            body0 = []
            if kind == "assert": body0.append({"k": "assert", "e": {"k": "cmp", "op": "!=", "l": x, "r": {"k": "lit", "ty": t, "c": 0, "o": 3}, "ty": "bool"}})
            if kind == "oob":
                body0.append({"k": "leta", "n": "cha", "ety": t, "len": 2, "e": one})
                op = {"k": "index", "a": "cha", "i": {"k": "conv", "from": t, "e": x, "ty": "i64"} if t == "i32" else x, "ty": t}
            body0 = self.filler(t, fill0, "w") + body0
            self.fns.append({"n": "ch0", "params": [["x", t]], "ret": t, "body": body0, "res": op, "callable": False})
            for i in range(1, depth + 1):
                self.fns.append({"n": f"ch{i}", "params": [["x", t]], "ret": t, "callable": False,
                                 "body": self.filler(t, fillc, f"u{i}_") + ([{"k": "print", "es": [{"k": "lit", "ty": "i32", "c": 0, "o": i}], "nl": r.random() < 0.6 or "print_nonl" not in self.feat}] if r.random() < 0.7 else []),
                                 "res": {"k": "bin", "op": "+", "l": {"k": "call", "fn": f"ch{i-1}", "args": [x], "ty": t}, "r": {"k": "lit", "ty": t, "c": 0, "o": 0}, "ty": t}})
            self.chain = {"fn": f"ch{depth}", "ty": t, "arg": arg}
        # run body
        env = {}
        self.depth_budget = 4
        body = []
        if "array" in self.feat:
            et = r.choice(INT)
            nm = self.fresh("arr")
            body.append({"k": "leta", "n": nm, "ety": et, "len": r.randint(1, 4), "e": self.expr(et, env, 1)})
            env[nm] = ["arr", et]
        body += self.stmts(env, r.randint(4, 9), 2)
        if "chain" in self.feat:
            ch = self.chain
            call = {"k": "call", "fn": ch["fn"], "args": [{"k": "lit", "ty": ch["ty"], "c": 0, "o": ch["arg"]}], "ty": ch["ty"]}
            if "lambda" in self.feat and r.random() < 0.5:
                nm = self.fresh("lam")
                body.append({"k": "lamlet", "n": nm, "params": [], "ret": ch["ty"], "body": [], "res": call})
                env[nm] = ["lam", [], ch["ty"]]
                call = {"k": "invoke", "n": nm, "args": [], "ty": ch["ty"]}
            body.append({"k": "print", "es": [call], "nl": True})
        body.append(self.print_stmt(env))
        self.run = body
        return self

    def ast(self):
        fns = {f["n"]: {"params": [p for p, _ in f["params"]], "body": f["body"], "res": f["res"]} for f in self.fns}
        return {"id": self.id, "fns": fns, "globals": [[g["n"], g["e"]] for g in self.globals], "run": self.run}


# ---------- rendering (assigns line numbers into the AST) ----------
class Renderer:
    def __init__(self):
        self.out = []

    def line(self, text):
        self.out.append(text)
        return len(self.out)

    def lit(self, e):
        if e["ty"] == "bool": return "true" if e["b"] else "false"
        ty = e["ty"]; T = TYN[ty]; s = SUF[ty]; c, o = e["c"], e["o"]
        if c == 0: return f"{o}{s}" if o >= 0 else f"(-{-o}{s})"
        if c == 1: return f"{T}::max_value()" if o == -1 else f"({T}::max_value() - {-o - 1}{s})"
        return f"{T}::min_value()" if o == 0 else f"({T}::min_value() + {o}{s})"

    def e(self, x, ln):
        """render expression; stamps the line on nodes"""
        x["line"] = ln
        k = x["k"]
        if k == "lit": return self.lit(x)
        if k == "var": return x["n"]
        if k == "glob": return x["n"]
        if k in ("bin", "cmp", "logic", "shift"): return f"({self.e(x['l'], ln)} {x['op']} {self.e(x['r'], ln)})"
        if k == "wrap": return f"({self.e(x['l'], ln)}).{x['op']}({self.e(x['r'], ln)})"
        if k == "un": return f"({x['op']}{self.e(x['e'], ln)})"
        if k == "conv": return f"({self.e(x['e'], ln)}).{'to_int64' if x['ty'] == 'i64' else 'to_int32'}()"
        if k == "if": return f"(if {self.e(x['c'], ln)} {{ {self.e(x['t'], ln)} }} else {{ {self.e(x['e'], ln)} }})"
        if k == "call": return f"{x['fn']}(" + ", ".join(self.e(a, ln) for a in x["args"]) + ")"
        if k == "invoke": return f"{x['n']}(" + ", ".join(self.e(a, ln) for a in x["args"]) + ")"
        if k == "tuple": return "(" + ", ".join(self.e(a, ln) for a in x["es"]) + ")"
        if k == "tget": return f"{self.e(x['e'], ln)}.{x['i']}"
        if k == "fget": return f"{self.e(x['e'], ln)}.{x['f']}"
        if k == "index": return f"{x['a']}({self.e(x['i'], ln)})"
        if k == "new": return f"{x['n']}(" + ", ".join(f"{f} = {self.e(v, ln)}" for f, v in x["fs"]) + ")"
        if k == "enew":
            if x["n"] == "Option":
                T = tyname(x["targ"])
                if x["v"] == "None" and not x["args"]:
                    return f"None[{T}]"
                return f"{x['v']}[{T}](" + ", ".join(self.e(a, ln) for a in x["args"]) + ")"
            return f"{x['n']}::{x['v']}" + ("(" + ", ".join(self.e(a, ln) for a in x["args"]) + ")" if x["args"] else "")
        raise ValueError(k)

    def stmts(self, ss, ind):
        for s in ss:
            self.stmt(s, ind)

    def stmt(self, s, ind):
        k = s["k"]
        ln = len(self.out) + 1
        s["line"] = ln
        if k == "let":
            self.line(f"{ind}let {'mut ' if s.get('mut', True) else ''}{s['n']}: {tyname(s['ty'])} = {self.e(s['e'], ln)};")
        elif k == "leta":
            self.line(f"{ind}let {s['n']} = Array[{TYN[s['ety']]}]::fill({s['len']}i64, {self.e(s['e'], ln)});")
        elif k == "set":
            self.line(f"{ind}{s['n']} = {self.e(s['e'], ln)};")
        elif k == "gset":
            self.line(f"{ind}{s['n']} = {self.e(s['e'], ln)};")
        elif k == "fset":
            self.line(f"{ind}{s['n']}.{s['f']} = {self.e(s['e'], ln)};")
        elif k == "seta":
            self.line(f"{ind}{s['a']}({self.e(s['i'], ln)}) = {self.e(s['e'], ln)};")
        elif k == "print":
            body = " ".join("${" + self.e(x, ln) + "}" for x in s["es"])
            # text printed without a newline ends with a space so that the next token stays separate
            self.line(f"{ind}println(\"{body}\");" if s["nl"] else f"{ind}print(\"{body} \");")
        elif k == "assert":
            self.line(f"{ind}std::assert({self.e(s['e'], ln)});")
        elif k == "return":
            self.line(f"{ind}return {self.e(s['e'], ln)};")
        elif k in ("break", "continue"):
            self.line(f"{ind}{k};")
        elif k == "ifs":
            self.line(f"{ind}if {self.e(s['c'], ln)} {{")
            self.stmts(s["t"], ind + "    ")
            if s["e"]:
                self.line(f"{ind}}} else {{")
                self.stmts(s["e"], ind + "    ")
            self.line(f"{ind}}}")
        elif k == "loop":
            self.line(f"{ind}let mut {s['c']} = 0i32;")
            s["line"] = len(self.out) + 1
            self.line(f"{ind}while {s['c']} < {s['n']}i32 {{")
            self.line(f"{ind}    {s['c']} = {s['c']} + 1i32;")
            self.stmts(s["body"], ind + "    ")
            self.line(f"{ind}}}")
        elif k == "match":
            # expression forms are rendered only while every arm still has the shape they stand for (mutants may break it)
            form = s.get("form")
            if form == "assign" and not (s["arms"] and all(len(a["body"]) == 1 and a["body"][0]["k"] == "set" and a["body"][0]["n"] == s["tgt"] for a in s["arms"])):
                form = None
            if form == "return" and not (s["arms"] and all(len(a["body"]) == 1 and a["body"][0]["k"] == "return" for a in s["arms"])):
                form = None
            head = {"assign": f"{s.get('tgt')} = ", "return": "return "}.get(form, "")
            self.line(f"{ind}{head}match {s['n']} {{")
            for a in s["arms"]:
                if a["v"] == "_":
                    pat = "_"
                elif s["ty"][0] == "opt":
                    pat = "None" if a["v"] == "None" else f"Some({a['binds'][0]})"
                else:
                    pat = f"{s['ty'][1]}::{a['v']}" + ("(" + ", ".join(a["binds"]) + ")" if a["binds"] else "")
                if form:
                    st = a["body"][0]
                    al = len(self.out) + 1
                    st["line"] = al
                    self.line(f"{ind}    {pat} => {self.e(st['e'], al)},")
                else:
                    self.line(f"{ind}    {pat} => {{")
                    self.stmts(a["body"], ind + "        ")
                    self.line(f"{ind}    }}")
            self.line(f"{ind}}}" + (";" if form else ""))
        elif k == "lamlet":
            ps = ", ".join(f"{p}: {TYN[t]}" for p, t in s["params"])
            self.line(f"{ind}let {s['n']} = |{ps}|: {TYN[s['ret']]} {{")
            self.stmts(s["body"], ind + "    ")
            rl = len(self.out) + 1
            s["rline"] = rl
            self.line(f"{ind}    {self.e(s['res'], rl)}")
            self.line(f"{ind}}};")
        else:
            raise ValueError(k)


def render(cases, filename="prog.dora"):
    R = Renderer()
    for c in cases:
        R.line(f"mod {c.id} {{")
        for s in c.structs:
            R.line("    struct " + s["n"] + " { " + ", ".join(f"{f}: {TYN[t]}" for f, t in s["fields"]) + " }")
        for s in c.classes:
            R.line("    class " + s["n"] + " { " + ", ".join(f"{f}: {TYN[t]}" for f, t in s["fields"]) + " }")
        for s in c.enums:
            R.line("    enum " + s["n"] + " { " + ", ".join(v["n"] + ("(" + ", ".join(TYN[t] for t in v["tys"]) + ")" if v["tys"] else "") for v in s["variants"]) + " }")
        for g in c.globals:
            ln = len(R.out) + 1
            R.line(f"    let mut {g['n']}: {TYN[g['ty']]} = {R.e(g['e'], ln)};")
        for f in c.fns:
            ps = ", ".join(f"{p}: {TYN[t]}" for p, t in f["params"])
            R.line(f"    fn {f['n']}({ps}): {TYN[f['ret']]} {{")
            R.stmts(f["body"], "        ")
            ln = len(R.out) + 1
            if f["res"] is not None:
                R.line(f"        {R.e(f['res'], ln)}")
            R.line("    }")
        R.line("    pub fn run() {")
        R.stmts(c.run, "        ")
        c.run_call_line = None
        R.line("    }")
        R.line("}")
    R.line("fn main() {")
    R.line("    let which = std::argv(0i32);")
    for i, c in enumerate(cases):
        ln = len(R.out) + 1
        c.main_line = ln
        R.line(f'    {"if" if i == 0 else "else if"} which == "{c.id}" {{ {c.id}::run(); }}')
    R.line("    else { std::exit(2i32); }")
    R.line("}")
    return "\n".join(R.out) + "\n"


ALL_FEATURES = ["alias", "chain", "fn", "rec", "array", "struct", "class", "enum", "option", "tuple", "match", "lambda", "global", "shift", "conv", "print_nonl"]


def generate_cases(seed, n, features=None):
    rnd = random.Random(seed)
    cases = []
    for i in range(n):
        feat = set(features if features is not None else [f for f in ALL_FEATURES if rnd.random() < 0.6])
        lay = i if "layout" in feat else None
        feat.discard("layout")
        cases.append(Case(rnd, f"c{i}", feat, layout=lay).build())
    return cases


def render_subset(cases, idxs):
    """renders the chosen cases as one program; line numbers are (re)stamped into the ASTs"""
    sub = [cases[i] for i in idxs]
    src = render(sub)
    asts = []
    for c in sub:
        a = c.ast()
        a["main_line"] = c.main_line
        a["features"] = sorted(c.feat)
        asts.append(json.loads(json.dumps(a)))
    return src, asts


def generate(seed, n, features=None):
    rnd = random.Random(seed)
    cases = []
    for i in range(n):
        feat = set(features if features is not None else [f for f in ALL_FEATURES if rnd.random() < 0.6])
        cases.append(Case(rnd, f"c{i}", feat).build())
    src = render(cases)
    asts = []
    for c in cases:
        a = c.ast()
        a["main_line"] = c.main_line
        a["features"] = sorted(c.feat)
        asts.append(a)
    return src, asts


if __name__ == "__main__":
    import sys
    src, asts = generate(int(sys.argv[1]), int(sys.argv[2]))
    open(sys.argv[3] + ".dora", "w").write(src)
    json.dump(asts, open(sys.argv[3] + ".json", "w"))
    print(len(src.splitlines()), "lines")
