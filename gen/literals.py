"""Literal spellings at the edges of the lexical grammar (C06: the whole front end must answer with diagnostics or accept).

literals() -> list of literal texts that are safe to embed in a larger file (no unterminated quote);
loose()    -> texts that may swallow the rest of the file (unterminated strings / chars / templates): one file each.
CONTEXTS   -> templates with {k} (unique number) and {L} (the literal)."""
import itertools

PREFIX = ["", "0b", "0x", "0o", "0B", "0X"]
DIGITS = ["", "0", "1", "9", "f", "_", "1_", "_1", "1__0", "99999999999999999999", "18446744073709551616", "9223372036854775808",
          "2147483648", "256", "1.5", "1.", "1.5.5", "1e5", "1e", "1e+", "1.5e-3", "1.5e400", "00", "0_0"]
SUFFIX = ["", "i32", "i64", "u8", "f32", "f64", "i7", "u", "f", "x", "_", "i32i32", "F32"]

CHARS = ["'a'", "''", "'ab'", "'\\n'", "'\\q'", "'\\u{41}'", "'\\u{110000}'", "'\\u{}'", "'\\u{d800}'", "'\\''", "'\\u{ffffffffff}'", "'é'", "'😀'"]
STRINGS = ['""', '"a"', '"\\q"', '"\\u{110000}"', '"\\u{}"', '"$"', '"$$"', '"${1}"', '"${}"', '"${"a"}"', '"${"${1}"}"', '"\\${1}"', '"é😀"', '"\\u{d800}"', '"${1 +}"', '"a${'+'1'+'}b${'+'2'+'}"']
LOOSE = ['"abc', "'a", "'", '"${1', '"${', '"\\', "'\\", '"${"', "/* open", "/* /* nested */", '"${ /* }" */ 1}"', "0x\n", '"a\nb"', "'\n'", "\"\\u{", "\"${1}", "\"$", "\\", "#", "`", "\u0000", "﻿", "‮", "\r", "1\r\n2"]


def literals():
    out = []
    for p, d, s in itertools.product(PREFIX, DIGITS, SUFFIX):
        t = p + d + s
        if not t or not (t[0].isdigit()):
            continue                      # would be an identifier, not a literal
        out.append(t)
    out = list(dict.fromkeys(out))
    return out + CHARS + STRINGS


def loose():
    return list(LOOSE)


CONTEXTS = {
    "let":     "fn f{k}() {{ let x = {L}; }}",
    "neg":     "fn f{k}() {{ let x = -{L}; }}",
    "i32":     "fn f{k}() {{ let x: Int32 = {L}; }}",
    "i64":     "fn f{k}() {{ let x: Int64 = {L}; }}",
    "u8":      "fn f{k}() {{ let x: UInt8 = {L}; }}",
    "f32":     "fn f{k}() {{ let x: Float32 = {L}; }}",
    "f64":     "fn f{k}() {{ let x: Float64 = -{L}; }}",
    "char":    "fn f{k}() {{ let x: Char = {L}; }}",
    "string":  "fn f{k}() {{ let x: String = {L}; }}",
    "pattern": "fn f{k}(v: Int32): Int32 {{ match v {{ {L} => 1i32, _ => 2i32 }} }}",
    "npattern": "fn f{k}(v: Int64): Int32 {{ match v {{ -{L} => 1i32, _ => 2i32 }} }}",
    "const":   "const C{k}: Int32 = {L};",
    "global":  "let G{k}: Int64 = {L};",
    "arg":     "fn f{k}() {{ std::assert({L} == {L}); }}",
    "index":   "fn f{k}(a: Array[Int32]): Int32 {{ a({L}) }}",
    "field":   "fn f{k}(t: (Int32, Int32)): Int32 {{ t.{L} }}",
}
