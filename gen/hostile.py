"""Boundary-value / hostile-argument programs (C02) and resource-exhaustion scenarios (C13): every case is a
module of one multi-case executable and runs in its own process."""
import random

I64 = ["(-1)", "0", "1", "3", "4", "5", "2147483647", "2147483648", "4294967296", "2305843009213693953",
       "(Int64::max_value())", "(Int64::max_value() - 7)", "(Int64::min_value())", "(Int64::min_value() + 1)", "1152921504606846976"]
I32 = ["(-1i32)", "0i32", "1i32", "31i32", "32i32", "63i32", "64i32", "65i32", "(Int32::max_value())", "(Int32::min_value())"]

# (name, body template using {n} / {m} for Int64 and {i} for Int32 arguments; the body prints something)
TEMPLATES = [
    ("array_zero_i64", 'println("${{Array[Int64]::zero({n}).size()}}");'),
    ("array_zero_u8", 'println("${{Array[UInt8]::zero({n}).size()}}");'),
    ("array_fill_i32", 'println("${{Array[Int32]::fill({n}, 7i32).size()}}");'),
    ("array_fill_tuple", 'println("${{Array[(Int64, Bool)]::fill({n}, (1, true)).size()}}");'),
    ("array_fill_ref", 'println("${{Array[Option[String]]::fill({n}, None[String]).size()}}");'),
    ("array_get", 'let a = Array[Int64]::fill(4, 9); println("${{a({n})}}");'),
    ("array_set", 'let a = Array[Int64]::fill(4, 9); a({n}) = 1; println("${{a(0)}}");'),
    ("array_zero_store", 'let a = Array[Int64]::zero({n}); a(0) = 5; a({m}) = 6; println("${{a(0)}}");'),
    ("vec_get", 'let v = Vec[Int64]::new(1, 2, 3, 4); println("${{v({n})}}");'),
    ("vec_set", 'let v = Vec[Int64]::new(1, 2, 3, 4); v({n}) = 7; println("${{v(0)}}");'),
    ("vec_remove_at", 'let v = Vec[Int64]::new(1, 2, 3, 4); println("${{v.remove_at({n})}} ${{v.size()}}");'),
    ("vec_insert_at", 'let v = Vec[Int64]::new(1, 2, 3, 4); v.insert_at({n}, 9); println("${{v.size()}}");'),
    ("vec_with_capacity", 'let v = Vec[Int64]::new_with_capacity({n}); v.push(1); println("${{v.size()}}");'),
    ("vec_reserve", 'let v = Vec[UInt8]::new(); v.reserve({n}); println("${{v.size()}}");'),
    ("string_get_byte", 'println("${{"hello".get_byte({n})}}");'),
    ("bitset_new", 'let b = std::collections::BitSet::new({n}); println("${{b.size()}}");'),
    ("bitset_insert", 'let b = std::collections::BitSet::new(64); b.insert({n}); println("${{b.contains({n})}}");'),
    ("bitvec_insert", 'let b = std::collections::BitVec::new(); println("${{b.insert({n})}} ${{b.contains({n})}}");'),
    ("shl_i64", 'let x = {n}; println("${{x << {i}}}");'),
    ("shr_i64", 'let x = {n}; println("${{x >> {i}}} ${{x >>> {i}}}");'),
    ("shl_i32", 'let x = {i}; println("${{x << {i2}}}");'),
    ("div_i64", 'let x = {n}; let y = {m}; println("${{x / y}}");'),
    ("mod_i64", 'let x = {n}; let y = {m}; println("${{x % y}}");'),
    ("mul_i64", 'let x = {n}; let y = {m}; println("${{x * y}}");'),
    ("wrapping_i64", 'let x = {n}; let y = {m}; println("${{x.wrapping_mul(y)}} ${{x.wrapping_add(y)}} ${{x.wrapping_sub(y)}}");'),
    ("neg_i64", 'let x = {n}; println("${{-x}}");'),
    ("to_int32", 'let x = {n}; println("${{x.to_int32()}} ${{x.to_uint8()}}");'),
    ("to_char", 'let x = {n}; println("${{x.to_char().is_some()}}");'),
    ("i32_to_char", 'let x = {i}; println("${{x.to_char().is_some()}} ${{x.to_int64()}}");'),
    ("string_buffer", 'let sb = std::string::StringBuffer::new(); sb.reserve({n}); println("${{sb.size()}}");'),
]


def hostile_cases(seed, per_template, quick=True):
    rng = random.Random(seed)
    cases = []
    for name, tpl in TEMPLATES:
        combos = set()
        tries = 0
        while len(combos) < per_template and tries < 200:
            tries += 1
            combos.add((rng.choice(I64), rng.choice(I64), rng.choice(I32), rng.choice(I32)))
        for k, (n, m, i, i2) in enumerate(sorted(combos)):
            body = tpl.format(n=n, m=m, i=i, i2=i2)
            cases.append({"id": f"h{len(cases)}", "template": name, "args": {"n": n, "m": m, "i": i, "i2": i2}, "body": body})
    return cases


def render(cases, prelude=""):
    out = [prelude]
    for c in cases:
        out.append(f"mod {c['id']} {{")
        out.append(c.get("decls", ""))
        out.append("    pub fn run() {")
        out.append("        " + c["body"])
        out.append("    }")
        out.append("}")
    out.append("fn main() {")
    out.append("    let which = std::argv(0i32);")
    for i, c in enumerate(cases):
        out.append(f'    {"if" if i == 0 else "else if"} which == "{c["id"]}" {{ {c["id"]}::run(); }}')
    out.append("    else { std::exit(2i32); }")
    out.append("}")
    return "\n".join(out) + "\n"


# ---------------- C13: exhaustion scenarios ----------------
def exhaustion_cases(seed):
    rng = random.Random(seed)
    cases = []

    def add(kind, expect, decls, body, flags=""):
        cases.append({"id": f"x{len(cases)}", "kind": kind, "expect": expect, "decls": decls, "body": body, "flags": flags})
    locals20 = " ".join(f"let l{j}: Int64 = n + {j};" for j in range(20))
    sum20 = " + ".join(f"l{j}" for j in range(20))
    fields40 = ", ".join(f"f{j}: Int64" for j in range(40))
    init40 = ", ".join(f"f{j} = n" for j in range(40))
    frames = {
        "tiny": ("fn rec(n: Int64): Int64 { rec(n + 1) + 1 }", "rec(0)"),
        "locals": (f"fn rec(n: Int64): Int64 {{ {locals20} rec(n + 1) + {sum20} }}", "rec(0)"),
        "bigstruct": (f"struct Big {{ {fields40} }}\n    fn rec(n: Int64, b: Big): Int64 {{ let c = Big({init40}); rec(n + 1, c) + b.f0 + b.f39 }}", f"rec(0, Big({init40.replace('= n', '= 1')}))"),
        "temps": ("fn g(a: Int64): Int64 { a }\n    fn rec(n: Int64): Int64 { g(n) + (g(n + 1) * (g(n + 2) + (g(n + 3) * (g(n + 4) + rec(n + 1))))) }", "rec(0)"),
        "mutual": ("fn ra(n: Int64): Int64 { rb(n + 1) + 1 }\n    fn rb(n: Int64): Int64 { ra(n + 1) + 2 }", "ra(0)"),
    }
    for fname, (decl, call) in frames.items():
        add(f"recursion:{fname}:main", ["trap107"], "    " + decl, f'println("${{{call}}}");')
        add(f"recursion:{fname}:spawned", ["trap107"], "    " + decl, f'let t = std::thread::spawn(|| {{ println("${{{call}}}"); }}); t.join(); println("joined");')
    # bounded recursion well inside the budget must complete
    add("recursion:bounded", ["ok"], "    fn down(n: Int64): Int64 { if n == 0 { 0 } else { down(n - 1) + 1 } }", 'println("${down(2000)}");')
    # heap exhaustion with live data
    for elem, mk in (("Int64", "Array[Int64]::fill(1024, i)"), ("UInt8", "Array[UInt8]::zero(8192)"), ("String", '"${i}".clone()')):
        add(f"heap:live:{elem}", ["trap106"], "", f"let keep = Vec[{'Array[' + elem + ']' if elem != 'String' else 'String'}]::new(); let mut i = 0; while true {{ keep.push({mk}); i = i + 1; }}",
            flags="--max-heap-size=16M")
        add(f"heap:live:{elem}:spawned", ["trap106"], "", f"let t = std::thread::spawn(|| {{ let keep = Vec[{'Array[' + elem + ']' if elem != 'String' else 'String'}]::new(); let mut i = 0; while true {{ keep.push({mk}); i = i + 1; }} }}); t.join();",
            flags="--max-heap-size=16M")
    # single objects of impossible / too large size
    sizes = ["4194304", "2147483648", "2305843009213693953", "1152921504606846976", "(Int64::max_value())", "(-1)", "(Int64::min_value())", "(-2147483648)"]
    elems = [("UInt8", "0u8"), ("Int32", "0i32"), ("Int64", "0"), ("(Int64, Int64)", "(0, 0)"), ("Option[String]", "None[String]")]
    for et, ev in elems:
        for sz in sizes:
            if et == "UInt8" and sz == "4194304":
                continue
            add(f"heap:single:{et}:{sz}", ["trap106"], "", f'let a = Array[{et}]::fill({sz}, {ev}); println("${{a.size()}}");', flags="--max-heap-size=16M")
    for sz in ["2305843009213693953", "(-1)"]:
        add(f"heap:single:zero:Int64:{sz}", ["trap106"], "", f'let a = Array[Int64]::zero({sz}); println("${{a.size()}}");', flags="--max-heap-size=16M")
    # allocation well inside the heap must succeed
    add("heap:fits", ["ok"], "", 'let a = Array[Int64]::fill(100000, 3); println("${a.size()}");', flags="--max-heap-size=16M")
    return cases


def bigframe_cases(thorough=False):
    """recursion with frames of ~260 KiB (huge), ~520 KiB (huger), ~1 MiB (giant) and ~4 MiB (mega): nested struct values P_k of 16 * 2^k bytes held in
    locals. Only for the baseline code generator (the optimizing compiler needs minutes for such functions)."""
    cases = []

    def prog(K):
        d = "    struct P[T] { a: T, b: T }\n    type P0 = P[Int64];\n" + "".join(f"    type P{k} = P[P{k - 1}];\n" for k in range(1, K + 1))
        d += "    fn rec(x: Int64): Int64 {\n        let p0 = P[Int64](a = x, b = x + 1);\n"
        d += "".join(f"        let p{k} = P[P{k - 1}](a = p{k - 1}, b = p{k - 1});\n" for k in range(1, K + 1))
        d += f"        let r = rec(x + 1);\n        r + p{K}{'.b' * K}.a\n    }}\n"
        return d
    shapes = [("huge", 13, True), ("huger", 14, True), ("giant", 15, True)] + ([("mega", 17, True)] if thorough else [])
    for name, K, _ in shapes:
        for where in ("main", "spawned"):
            if name == "giant" and where == "main" and not thorough:
                continue
            body = 'println("${rec(1)}");' if where == "main" else 'let t = std::thread::spawn(|| { println("${rec(1)}"); }); t.join(); println("joined");'
            cases.append({"id": f"b{len(cases)}", "kind": f"recursion:{name}:{where}", "expect": ["trap107"], "decls": prog(K), "body": body, "flags": ""})
    return cases
