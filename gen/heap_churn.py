"""Allocation-churn programs for C03 (NoSpuriousOOM): total allocation far above the heap limit, live set small."""
import random


def program(seed):
    rng = random.Random(seed)
    window = rng.choice([4, 16, 64])
    total = rng.choice([20000, 60000])
    elems = rng.choice([8, 32, 128])
    return f"""
class Blob {{ id: Int64, data: Array[Int64] }}
fn main() {{
    let live = Array[Option[Blob]]::fill({window}, None[Blob]);
    let mut i = 0;
    let mut check = 0;
    while i < {total} {{
        let b = Blob(id = i, data = Array[Int64]::fill({elems}, i));
        live(i % {window}) = Some[Blob](b);
        if i % 97 == 0 {{
            let o = live((i / 2) % {window});
            if o.is_some() {{ let x = o.get_or_panic(); std::assert(x.data(0) == x.id); check = check + 1; }}
        }}
        i = i + 1;
    }}
    println("${{check}}");
}}
""", None, {"window": window, "total": total, "elems": elems, "bytes_total": total * (elems * 8 + 48)}
