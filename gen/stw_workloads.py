"""Generates multi-threaded Dora workloads for C04 I->S trace validation (<= 4 threads in total)."""
import random

HEAD = """class Foo { value: Int32, next: Option[Foo] }
fn allocator(n: Int32): Int32 {
    let mut i = 0i32;
    let mut keep: Option[Foo] = None[Foo];
    let mut sum = 0i32;
    while i < n {
        let f = Foo(value = i, next = keep);
        if i % 3i32 == 0i32 { keep = Some[Foo](f); }
        if i % 7i32 == 0i32 { keep = None[Foo]; }
        sum = sum + i;
        i = i + 1i32;
    }
    sum
}
fn natives(n: Int32): Int64 {
    let mut i = 0i32;
    let mut len = 0i64;
    while i < n {
        let s = "${i}";
        len = len + s.size();
        i = i + 1i32;
    }
    len
}
"""


def body(rng, depth, budget):
    """statements of one thread; may spawn children while the global thread budget allows"""
    stmts = []
    joins = []
    for k in range(rng.randint(2, 4)):
        c = rng.random()
        if c < 0.35:
            stmts.append(f"allocator({rng.randint(5, 40)}i32);")
        elif c < 0.5:
            stmts.append(f"natives({rng.randint(3, 20)}i32);")
        elif c < 0.65:
            stmts.append("std::force_collect();")
        elif c < 0.75:
            stmts.append("std::force_minor_collect();")
        elif budget[0] > 0 and depth < 2:
            budget[0] -= 1
            name = f"t{depth}_{k}"
            inner = body(rng, depth + 1, budget)
            stmts.append(f"let {name} = std::thread::spawn(|| {{ {inner} }});")
            joins.append(f"{name}.join();")
        else:
            stmts.append(f"allocator({rng.randint(5, 25)}i32);")
    rng.shuffle(joins)
    return " ".join(stmts + joins)


def program(seed, max_threads=3):
    rng = random.Random(seed)
    budget = [max_threads]
    b = body(rng, 0, budget)
    if budget[0] == max_threads:   # always at least one child
        b = "let tx = std::thread::spawn(|| { allocator(30i32); }); " + b + " tx.join();"
    return HEAD + "fn main() { " + b + " println(\"done\"); }\n"


def storm(seed, threads=3, iters=400):
    """several threads request stop-the-world operations back to back (minor/full collections, natives in between):
    requests, resumes, parks and unparks of different operations interleave as tightly as the OS allows"""
    rng = random.Random(seed)
    kinds = ["std::force_minor_collect();", "std::force_collect();", "natives(1i32);", "allocator(3i32);"]
    bodies = []
    for t in range(threads):
        a, b = rng.choice(kinds[:2]), rng.choice(kinds)
        bodies.append(f"let s{t} = std::thread::spawn(|| {{ let mut i = 0i32; let mut c = Foo(value = 0i32, next = None[Foo]); "
                      f"while i < {iters}i32 {{ {a} {b} c = Foo(value = c.value + 1i32, next = None[Foo]); i = i + 1i32; }} "
                      f"std::assert(c.value == {iters}i32); }});")
    joins = " ".join(f"s{t}.join();" for t in range(threads))
    return HEAD + "fn main() { " + " ".join(bodies) + " " + joins + ' println("done"); }\n'


if __name__ == "__main__":
    import sys
    print(program(int(sys.argv[1])))
