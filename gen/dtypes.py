"""C05: export of generated cases for spec/lang/DoraTypes.tla and single-edit mutation of their ASTs."""
import copy, json, random
import dsem_gen
from dsem_gen import INT


def tkey(t):
    if isinstance(t, str):
        return t
    k = t[0]
    if k == "tuple": return "tuple(" + ",".join(tkey(x) for x in t[1]) + ")"
    if k in ("struct", "class", "enum"): return f"{k}:{t[1]}"
    if k == "opt": return f"opt({tkey(t[1])})"
    if k == "arr": return f"arr({tkey(t[1])})"
    if k == "lam": return "lam(" + ",".join(tkey(x) for x in t[1]) + "->" + tkey(t[2]) + ")"
    raise ValueError(t)


class Export:
    def __init__(self, case):
        self.c = case
        self.types = {}
        for s in case.structs: self.types["struct:" + s["n"]] = {"k": "struct", "fields": [[f, tkey(t)] for f, t in s["fields"]]}
        for s in case.classes: self.types["class:" + s["n"]] = {"k": "class", "fields": [[f, tkey(t)] for f, t in s["fields"]]}
        for s in case.enums: self.types["enum:" + s["n"]] = {"k": "enum", "variants": {v["n"]: [tkey(t) for t in v["tys"]] for v in s["variants"]}}

    def reg(self, t):
        k = tkey(t)
        if k in self.types or isinstance(t, str):
            return k
        if t[0] == "tuple": self.types[k] = {"k": "tuple", "elems": [self.reg(x) for x in t[1]]}
        elif t[0] == "opt": self.types[k] = {"k": "enum", "variants": {"Some": [self.reg(t[1])], "None": []}}
        elif t[0] == "arr": self.types[k] = {"k": "arr", "elem": self.reg(t[1])}
        elif t[0] == "lam": self.types[k] = {"k": "lam", "params": [self.reg(x) for x in t[1]], "ret": self.reg(t[2])}
        return k

    def e(self, x):
        k = x["k"]
        o = {"k": k}
        if k == "lit": o["ty"] = x["ty"]
        elif k in ("var", "glob"): o["n"] = x["n"]
        elif k in ("bin", "wrap", "shift", "cmp", "logic"): o.update(op=x["op"], l=self.e(x["l"]), r=self.e(x["r"]))
        elif k == "un": o.update(op=x["op"], e=self.e(x["e"]))
        elif k == "conv": o.update(e=self.e(x["e"]), **{"from": x["from"], "to": x["ty"]})
        elif k == "if": o.update(c=self.e(x["c"]), t=self.e(x["t"]), e=self.e(x["e"]))
        elif k == "call": o.update(fn=x["fn"], args=[self.e(a) for a in x["args"]])
        elif k == "invoke": o.update(n=x["n"], args=[self.e(a) for a in x["args"]])
        elif k == "tuple": o.update(tkey=self.reg(x["ty"]), es=[self.e(a) for a in x["es"]])
        elif k == "tget": o.update(e=self.e(x["e"]), i=x["i"])
        elif k == "new": o.update(tkey=("class:" if x["ref"] else "struct:") + x["n"], fs=[[f, self.e(v)] for f, v in x["fs"]])
        elif k == "fget": o.update(e=self.e(x["e"]), f=x["f"])
        elif k == "enew": o.update(tkey=(self.reg(["opt", x["targ"]]) if x["n"] == "Option" else "enum:" + x["n"]), v=x["v"], args=[self.e(a) for a in x["args"]])
        elif k == "index": o.update(a=x["a"], i=self.e(x["i"]))
        else: raise ValueError(k)
        return o

    def ss(self, l):
        return [self.s(x) for x in l]

    def s(self, x):
        k = x["k"]
        o = {"k": k}
        if k == "let": o.update(n=x["n"], ty=self.reg(x["ty"]), mut=x.get("mut", True), e=self.e(x["e"]))
        elif k == "leta": o.update(n=x["n"], ety=x["ety"], aty=self.reg(["arr", x["ety"]]), e=self.e(x["e"]))
        elif k in ("set", "gset"): o.update(n=x["n"], e=self.e(x["e"]))
        elif k == "fset": o.update(n=x["n"], f=x["f"], e=self.e(x["e"]))
        elif k == "seta": o.update(a=x["a"], i=self.e(x["i"]), e=self.e(x["e"]))
        elif k == "print": o.update(es=[self.e(a) for a in x["es"]])
        elif k in ("assert", "return"): o.update(e=self.e(x["e"]))
        elif k in ("break", "continue"): pass
        elif k == "ifs": o.update(c=self.e(x["c"]), t=self.ss(x["t"]), e=self.ss(x["e"]))
        elif k == "loop": o.update(c=x["c"], body=self.ss(x["body"]))
        elif k == "match": o.update(n=x["n"], arms=[{"v": a["v"], "binds": a["binds"], "body": self.ss(a["body"])} for a in x["arms"]])
        elif k == "lamlet":
            o.update(n=x["n"], params=[[p, t] for p, t in x["params"]], ret=x["ret"], body=self.ss(x["body"]), res=self.e(x["res"]),
                     lty=self.reg(["lam", [t for _, t in x["params"]], x["ret"]]))
        else: raise ValueError(k)
        return o

    def case(self, cid):
        c = self.c
        fns = {}
        for f in c.fns:
            fns[f["n"]] = {"params": [p for p, _ in f["params"]], "ptys": [tkey(t) for _, t in f["params"]], "ret": f["ret"],
                           "body": self.ss(f["body"]), "hasres": f["res"] is not None, "res": self.e(f["res"]) if f["res"] is not None else {"k": "lit", "ty": "unit"}}
        out = {"id": cid, "globals": {g["n"]: g["ty"] for g in c.globals}, "ginit": [[g["n"], self.e(g["e"])] for g in c.globals],
               "fns": fns, "run": self.ss(c.run)}
        out["types"] = self.types
        return out


# ---------------- mutation ----------------
def _lit(ty, rng):
    if ty == "bool": return {"k": "lit", "ty": "bool", "b": rng.random() < 0.5}
    return {"k": "lit", "ty": ty, "c": 0, "o": rng.randint(0, 9)}


def _other_scalar(t, rng):
    base = t if isinstance(t, str) else None
    return rng.choice([x for x in ("i32", "i64", "bool") if x != base])


def _walk_exprs(x, slots, role):
    """collect (container, key, role) for every expression slot below x (x is an expression dict)"""
    k = x["k"]
    def sub(c, key, r):
        slots.append((c, key, r)); _walk_exprs(c[key], slots, r)
    if k in ("bin", "wrap", "cmp", "logic"): sub(x, "l", "operand"); sub(x, "r", "operand")
    elif k == "shift": sub(x, "l", "operand"); sub(x, "r", "shift-amount")
    elif k == "un": sub(x, "e", "operand")
    elif k == "conv": sub(x, "e", "conversion-receiver")
    elif k == "if": sub(x, "c", "condition"); sub(x, "t", "branch"); sub(x, "e", "branch")
    elif k in ("call", "invoke", "enew"):
        for i in range(len(x["args"])): sub(x["args"], i, "argument")
    elif k == "tuple":
        for i in range(len(x["es"])): sub(x["es"], i, "tuple-element")
    elif k == "new":
        for fv in x["fs"]: sub(fv, 1, "field-init")
    elif k in ("tget", "fget"): sub(x, "e", "receiver")
    elif k == "index": sub(x, "i", "index")


def _walk_stmts(ss, slots, stmts):
    for s in ss:
        stmts.append((ss, s))
        k = s["k"]
        def sub(key, r):
            slots.append((s, key, r)); _walk_exprs(s[key], slots, r)
        if k in ("let", "leta"): sub("e", "initializer")
        elif k in ("set", "gset", "fset"): sub("e", "assigned-value")
        elif k == "seta": sub("i", "index"); sub("e", "assigned-value")
        elif k in ("assert",): sub("e", "condition")
        elif k == "return": sub("e", "return-value")
        elif k == "ifs": sub("c", "condition"); _walk_stmts(s["t"], slots, stmts); _walk_stmts(s["e"], slots, stmts)
        elif k == "loop": _walk_stmts(s["body"], slots, stmts)
        elif k == "match":
            for a in s["arms"]: _walk_stmts(a["body"], slots, stmts)
        elif k == "lamlet":
            _walk_stmts(s["body"], slots, stmts); slots.append((s, "res", "lambda-result")); _walk_exprs(s["res"], slots, "lambda-result")
        elif k == "print":
            for i in range(len(s["es"])): _walk_exprs(s["es"][i], slots, "operand")   # the printed values themselves accept any scalar


def mutate(case, rng, kind=None):
    """returns (mutated deep copy, description dict with class/label) or None; kind forces the class of edit"""
    c = copy.deepcopy(case)
    slots, stmts = [], []
    for f in c.fns:
        _walk_stmts(f["body"], slots, stmts)
        if f["res"] is not None:
            slots.append((f, "res", "function-result")); _walk_exprs(f["res"], slots, "function-result")
    _walk_stmts(c.run, slots, stmts)
    kind = kind or rng.choice(["type", "type", "type", "argcount", "unknown", "unknown", "immutable", "noreturn", "arm", "field"])
    if kind == "type" and slots:
        cont, key, role = rng.choice(slots)
        old = cont[key]
        want = old.get("ty")
        nt = _other_scalar(want, rng)
        cont[key] = _lit(nt, rng)
        return c, {"class": "type-mismatch", "where": role, "expected": tkey(want) if want is not None else "?", "got": nt, "label": "maybe" if role in ("function-result", "conversion-receiver") else "ill"}
    if kind == "argcount":
        calls = [(cont, key) for cont, key, _ in slots if isinstance(cont[key], dict) and cont[key]["k"] in ("call", "invoke", "enew", "new")]
        # top-level expressions of statements are slots too
        if calls:
            cont, key = rng.choice(calls)
            x = cont[key]
            lst = x["fs"] if x["k"] == "new" else x["args"]
            if lst and rng.random() < 0.6:
                lst.pop(rng.randrange(len(lst)))
                return c, {"class": "argument-count", "where": x["k"], "edit": "drop", "label": "ill"}
            if x["k"] != "new":
                lst.append(_lit(rng.choice(INT), rng))
                return c, {"class": "argument-count", "where": x["k"], "edit": "extra", "label": "ill"}
    if kind == "unknown":
        named = [(cont, key) for cont, key, _ in slots if isinstance(cont[key], dict) and cont[key]["k"] in ("var", "call", "fget", "enew", "glob")]
        if named:
            cont, key = rng.choice(named)
            x = cont[key]
            if x["k"] in ("var", "glob"): x["n"] = "zz_unknown"; w = "variable"
            elif x["k"] == "call": x["fn"] = "no_such_fn"; w = "function"
            elif x["k"] == "fget": x["f"] = "no_field"; w = "field"
            else:
                if x["n"] == "Option": return None
                x["v"] = "NoSuchVariant"; w = "variant"
            return c, {"class": "unknown-name", "where": w, "label": "ill"}
    if kind == "immutable":
        lets = [s for _, s in stmts if s["k"] == "let"]
        if lets:
            s = rng.choice(lets)
            s["mut"] = False
            return c, {"class": "immutable-target", "where": "let " + s["n"], "label": "maybe"}
    if kind == "noreturn":
        fs = [f for f in c.fns if f["res"] is not None]
        if fs:
            f = rng.choice(fs)
            f["res"] = None
            return c, {"class": "missing-return-value", "where": f["n"], "label": "maybe"}
    if kind == "arm":
        ms = [s for _, s in stmts if s["k"] == "match" and len(s["arms"]) > 1]
        if ms:
            exprs = [s for s in ms if s.get("form")]         # matches standing in expression position first
            s = rng.choice(exprs if exprs and rng.random() < 0.7 else ms)
            s["arms"].pop(rng.randrange(len(s["arms"])))
            return c, {"class": "non-exhaustive-match", "where": "match " + s["n"] + (" (" + s["form"] + " form)" if s.get("form") else ""), "label": "maybe"}
    if kind == "field":
        fs = [s for _, s in stmts if s["k"] == "fset"]
        if fs:
            s = rng.choice(fs)
            s["f"] = "no_field"
            return c, {"class": "unknown-name", "where": "assigned field", "label": "ill"}
    return None
