"""Token-level and line-ending mutants of source texts (C06 / C16 inputs)."""
import random, re

TOK = re.compile(r"\s+|//[^\n]*|/\*.*?\*/|[A-Za-z_][A-Za-z0-9_]*|\d+(?:\.\d+)?(?:[a-z]\d+)?|\"(?:\\.|[^\"\\])*\"|'(?:\\.|[^'\\])*'|::|=>|->|==|!=|<=|>=|&&|\|\||<<|>>>|>>|.", re.S)
KW = ["fn", "let", "mut", "class", "struct", "enum", "trait", "impl", "match", "if", "else", "while", "for", "in", "return", "use", "mod", "self", "Self", "pub", "static", "const", "as", "is", "true", "type", "where"]
PUNCT = ["(", ")", "{", "}", "[", "]", ",", ";", ":", "::", ".", "=", "=>", "->", "|", "<", ">", "-", "!", "@", "..", "'", "\"", "/*", "\\"]


def tokens(text):
    return TOK.findall(text)


def mutants(text, rng, n):
    toks = tokens(text)
    code = [i for i, t in enumerate(toks) if not t.isspace()]
    out = []
    if not code:
        return out
    for _ in range(n):
        t = list(toks)
        kind = rng.choice(["delete", "dup", "swap", "kw", "punct", "truncate", "unicode", "nest"])
        i = rng.choice(code)
        if kind == "delete": del t[i]
        elif kind == "dup": t.insert(i, t[i])
        elif kind == "swap":
            j = rng.choice(code); t[i], t[j] = t[j], t[i]
        elif kind == "kw": t[i] = rng.choice(KW)
        elif kind == "punct": t[i] = rng.choice(PUNCT)
        elif kind == "truncate": t = t[:i]
        elif kind == "unicode": t[i] = rng.choice(["é", "😀", "\u0000", "\ufeff", "λx", "\u202e"])
        else: t[i] = "(" * 40 + t[i]
        out.append((kind, "".join(t)))
    return out


def line_endings(text, rng=None):
    """whole-file CRLF / CR, and files that MIX the three styles (every line break drawn independently; and a
    file whose first break differs from all the others, in both directions)"""
    rng = rng or random.Random(len(text))
    parts = text.split("\n")
    def join(pick):
        return "".join(p + (pick(i) if i < len(parts) - 1 else "") for i, p in enumerate(parts))
    styles = ["\n", "\r\n", "\r"]
    a, b = rng.sample(styles, 2)
    return [("crlf", text.replace("\n", "\r\n")), ("cr", text.replace("\n", "\r")),
            ("mixed", join(lambda i: rng.choice(styles))),
            ("mixedfirst", join(lambda i: a if i == 0 else b))]
